"""
harness/core.py — shared machinery of the correspondence harness.

* (loc, off) <-> datetime conversion (microsecond counts since 0001-01-01T00:00)
* a controllable clock, installed by rebinding the name `dt` inside the scheduler's modules
* serialisation of scenarios into the line protocol of lean/Driver.lean
* running the Lean driver
"""
from __future__ import annotations

import datetime as _dt
import os
import subprocess
import sys
import types
from fractions import Fraction

REPO = os.environ.get("VERIF_REPO", "/repo")
VERIF = os.path.dirname(os.path.dirname(os.path.abspath(__file__)))
if REPO not in sys.path:
    sys.path.insert(0, REPO)

_REAL_DT = _dt.datetime
_ORIGIN = _REAL_DT(1, 1, 1)
_US = _dt.timedelta(microseconds=1)

MINUTE = 60_000_000
HOUR = 3_600_000_000
DAY = 86_400_000_000
WEEK = 7 * DAY


# ------------------------------------------------------------------ conversion
def tz_of(off):
    """fixed-offset tzinfo for an offset in µs (None = naive)"""
    if off is None:
        return None
    return _dt.timezone(_dt.timedelta(microseconds=off))


def to_loc(d: _dt.datetime) -> int:
    return (d.replace(tzinfo=None) - _ORIGIN) // _US


def off_of(d) -> "int|None":
    o = d.utcoffset()
    return None if o is None else o // _US


def inst_of(d: _dt.datetime) -> int:
    return to_loc(d) - (off_of(d) or 0)


def from_loc(loc: int, off) -> _dt.datetime:
    return (_ORIGIN + _dt.timedelta(microseconds=loc)).replace(tzinfo=tz_of(off))


def mk_time(h, m, s, us, off) -> _dt.time:
    return _dt.time(h, m, s, us, tzinfo=tz_of(off))


def loc_of_ymd(y, mo, d, h=0, mi=0, s=0, us=0) -> int:
    return to_loc(_REAL_DT(y, mo, d, h, mi, s, us))


# ------------------------------------------------------------------ clock
class Clock:
    """`instant` is the µs count of the current instant (for a naive scheduler: the local reading)"""

    def __init__(self):
        self.instant = loc_of_ymd(2021, 5, 26, 3, 55)

    def now(self, tz=None):
        if tz is None:
            return from_loc(self.instant, None)
        off = tz.utcoffset(None) // _US
        return from_loc(self.instant + off, None).replace(tzinfo=tz)


CLOCK = Clock()


class _Meta(type):
    def __instancecheck__(cls, obj):
        return isinstance(obj, _REAL_DT)

    def __subclasscheck__(cls, sub):
        return issubclass(sub, _REAL_DT)


class FakeDatetime(_REAL_DT, metaclass=_Meta):
    @classmethod
    def now(cls, tz=None):
        return CLOCK.now(tz)


_shim = types.ModuleType("datetime")
_shim.__dict__.update({k: v for k, v in vars(_dt).items() if not k.startswith("__")})
_shim.datetime = FakeDatetime

_installed = False


def install_clock():
    """rebind `dt` (the datetime module) in every loaded scheduler module to the shim"""
    global _installed
    import scheduler  # noqa: F401
    import scheduler.asyncio  # noqa: F401
    import scheduler.threading  # noqa: F401
    import scheduler.trigger  # noqa: F401
    import scheduler.prioritization  # noqa: F401

    for name, mod in list(sys.modules.items()):
        if name == "scheduler" or name.startswith("scheduler."):
            for attr, val in list(vars(mod).items()):
                if val is _dt:
                    setattr(mod, attr, _shim)
                elif val is _REAL_DT:
                    setattr(mod, attr, FakeDatetime)
    _installed = True


# ------------------------------------------------------------------ line protocol
def s_opt_int(x):
    return "N" if x is None else str(x)


def s_dt(d):  # d = [loc, off] | None
    return "-" if d is None else f"@ {d[0]} {s_opt_int(d[1])}"


def s_timing(t):
    k = t[0]
    if k == "c":
        return f"c {t[1]}"
    if k == "t":
        return f"t {t[1]} {t[2]} {t[3]} {t[4]} {s_opt_int(t[5])}"
    if k == "w":
        return f"w {t[1]} {t[2]} {t[3]} {t[4]} {t[5]} {s_opt_int(t[6])}"
    if k == "d":
        return f"d {t[1]} {s_opt_int(t[2])}"
    raise ValueError(k)


def s_list(xs):
    return " ".join([str(len(xs))] + [str(x) for x in xs])


def s_spec(o):
    ts = o["timings"]
    tags = o.get("tags") or []
    w = o.get("w", [1, 1])
    return " ".join(
        [
            str(o["call"]),
            "1" if o.get("is_list") else "0",
            str(len(ts)),
            *[s_timing(t) for t in ts],
            s_dt(o.get("start")),
            s_dt(o.get("stop")),
            "1" if o.get("delay", True) else "0",
            "1" if o.get("skip", False) else "0",
            str(o.get("max_att", 0)),
            str(w[0]),
            str(w[1]),
            str(o.get("payload", 0)),
            s_list(tags),
        ]
    )


def s_cop(c):
    k = c["op"]
    if k == "sch":
        return "cs " + s_spec(c)
    if k == "del":
        return f"cd {c['key']}"
    if k == "dtags":
        return f"ct {1 if c.get('any') else 0} {s_list(c.get('tags') or [])}"
    if k == "get":
        return f"cg {1 if c.get('any') else 0} {s_list(c.get('tags') or [])}"
    if k == "str":
        return "cp"
    raise ValueError(k)


def s_op(o, order=None):
    k = o["op"]
    if k == "sch":
        if o.get("ctor"):
            return f"job {s_spec(o)} {o['clock']} {s_opt_int(o['_jobtz'] if '_jobtz' in o else o.get('_schedtz'))}"
        return f"sch {s_spec(o)} {o['clock']}"
    if k == "exec":
        scripts = o.get("scripts") or {}
        parts = [str(len(scripts))]
        for key in sorted(scripts, key=int):
            parts.append(f"{key} {len(scripts[key])} " + " ".join(s_cop(c) for c in scripts[key]))
        prios = o.get("_prios")
        return (
            f"exec {o['clock']} {1 if o.get('force') else 0} {s_list(order or [])} "
            f"{s_list(o.get('raises') or [])} {' '.join(parts)}"
        ).replace("  ", " ").strip()
    if k == "del":
        return f"del {o['key']}"
    if k == "dtags":
        return f"dtags {1 if o.get('any') else 0} {s_list(o.get('tags') or [])}"
    if k == "get":
        return f"get {1 if o.get('any') else 0} {s_list(o.get('tags') or [])}"
    if k == "jobs":
        return "jobs"
    raise ValueError(k)


def s_header(scn):
    return f"S {s_opt_int(scn.get('tz'))} {scn.get('max_exec', 0)} {scn.get('prio', 0)}"


# ------------------------------------------------------------------ Lean driver
DRIVER = os.path.join(VERIF, "lean", ".lake", "build", "bin", "driver")


def run_driver(lines):
    """feed lines to the compiled Lean driver; returns the answer lines (one per input line)"""
    inp = "\n".join(lines) + "\n"
    if os.environ.get("VERIF_DUMP_DRIVER_INPUT"):
        with open(os.environ["VERIF_DUMP_DRIVER_INPUT"] + f".{os.getpid()}", "w") as fh:
            fh.write(inp)
    if os.path.exists(DRIVER) and not os.environ.get("VERIF_INTERPRET"):
        cmd = [DRIVER]
        cwd = None
    else:
        cmd = ["lake", "env", "lean", "--run", "Driver.lean"]
        cwd = os.path.join(VERIF, "lean")
    p = subprocess.run(cmd, input=inp, capture_output=True, text=True, cwd=cwd, timeout=3600)
    if p.returncode != 0:
        raise RuntimeError(f"Lean driver failed: {p.stderr[:2000]}")
    out = p.stdout.split("\n")
    if out and out[-1] == "":
        out.pop()
    if len(out) != len(lines):
        raise RuntimeError(f"driver answered {len(out)} lines for {len(lines)} inputs")
    return out


def frac_of_float(x) -> Fraction:
    return Fraction(x)
