#!/usr/bin/env python3
"""
tools/mutants.py — apply small hand-written mutants to a scratch worktree of /repo one at a time, run the pinned suite and
the relevant quick checks, revert. Prints a kill table (development aid; not a registered check).
usage: tools/mutants.py [name-substring]
"""
import json
import os
import subprocess
import sys

REPO = "/tmp/mutants_wt"   # a scratch worktree of /repo HEAD (created / removed by main); /repo itself is not touched
VERIF = os.path.dirname(os.path.dirname(os.path.abspath(__file__)))

# (name, file, old, new, checks that should notice)
MUTANTS = [
    ("util-daily-lt", "scheduler/util.py", "    if (target - now).total_seconds() <= 0:\n        target = target + dt.timedelta(days=1)", "    if (target - now).total_seconds() < 0:\n        target = target + dt.timedelta(days=1)", ["C01", "C08"]),
    ("util-hourly-lt", "scheduler/util.py", "    if (target - now).total_seconds() <= 0:\n        target = target + dt.timedelta(hours=1)", "    if (target - now).total_seconds() < 0:\n        target = target + dt.timedelta(hours=1)", ["C01"]),
    ("util-minutely-lt", "scheduler/util.py", "        return target + dt.timedelta(minutes=1)", "        return target + dt.timedelta(minutes=1, microseconds=1)", ["C01"]),
    ("util-weekday-date-ne", "scheduler/util.py", "if candidate.date() == now.date():", "if candidate.date() != now.date():", ["C02"]),
    ("util-days7", "scheduler/util.py", "    if days == 7:", "    if days >= 6:", ["C02"]),
    ("util-unique-plus", "scheduler/util.py", "            - (time.utcoffset() or dt.timedelta())", "            + (time.utcoffset() or dt.timedelta())", ["C09"]),
    ("util-weekunique-noconv", "scheduler/util.py", "next_weekday_time_occurrence(ref.astimezone(day.time.tzinfo), day, day.time)", "next_weekday_time_occurrence(ref, day, day.time)", ["C09"]),
    ("timer-skip-le", "scheduler/base/job_timer.py", "and self.__next_exec < ref:", "and self.__next_exec <= ref:", ["C08"]),
    ("timer-cyclic-drift", "scheduler/base/job_timer.py", "                if self.__skip and ref is not None:\n                    self.__next_exec = ref", "                if ref is not None:\n                    self.__next_exec = ref", ["C03"]),
    ("timer-daylike-noconv", "scheduler/base/job_timer.py", "                if self.__next_exec.tzinfo:\n                    self.__next_exec = self.__next_exec.astimezone(self.__timing.tzinfo)", "                pass", ["C01", "C13"]),
    ("jobutil-pending-last", "scheduler/base/job_util.py", "    return sorted_timers[0]", "    return sorted_timers[-1]", ["C09"]),
    ("jobutil-start-gt", "scheduler/base/job_util.py", "        if start >= stop:", "        if start > stop:", ["C07"]),
    ("jobutil-std-swap", "scheduler/base/job_util.py", "timing = [time.replace(hour=0) for time in cast(list[dt.time], timing)]", "timing = [time.replace(minute=0) for time in cast(list[dt.time], timing)]", ["C01", "C09"]),
    ("job-stop-ge", "scheduler/base/job.py", "        if self.__stop is not None and self.__pending_timer.datetime > self.__stop:", "        if self.__stop is not None and self.__pending_timer.datetime >= self.__stop:", ["C07"]),
    ("job-skip-lt", "scheduler/base/job.py", "                if (timer.datetime - ref_dt).total_seconds() <= 0:", "                if (timer.datetime - ref_dt).total_seconds() < 0:", ["C08"]),
    ("job-attempts-le", "scheduler/base/job.py", "        return self.__attempts < self.__max_attempts", "        return self.__attempts <= self.__max_attempts", ["C06"]),
    ("job-kwargs-nocopy", "scheduler/base/job.py", "self.__kwargs = {} if kwargs is None else kwargs.copy()", "self.__kwargs = {} if kwargs is None else kwargs", ["C19"]),
    ("job-tags-nocopy", "scheduler/base/job.py", "        return self.__tags.copy()", "        return self.__tags", ["C19"]),
    ("prio-linear-le", "scheduler/prioritization.py", "    if time_delta < 0:\n        return 0\n    return (time_delta + 1) * job.weight", "    if time_delta <= 0:\n        return 0\n    return (time_delta + 1) * job.weight", ["C04", "C05"]),
    ("prio-linear-nod1", "scheduler/prioritization.py", "    return (time_delta + 1) * job.weight", "    return time_delta * job.weight", ["C04", "C05"]),
    ("sched-noreverse", "scheduler/threading/scheduler.py", "key=job_priority.get, reverse=True)", "key=job_priority.get)", ["C05"]),
    ("sched-idx-le", "scheduler/threading/scheduler.py", "idx < self.__max_exec) and", "idx <= self.__max_exec) and", ["C05"]),
    ("sched-prio-ge", "scheduler/threading/scheduler.py", "and job_priority[job] > 0", "and job_priority[job] >= 0", ["C04", "C05"]),
    ("sched-swap-args", "scheduler/threading/scheduler.py", "                    self.__max_exec,\n                    n_jobs,", "                    n_jobs,\n                    self.__max_exec,", ["C05"]),
    ("sched-sign", "scheduler/threading/scheduler.py", "                    -delta_seconds,", "                    delta_seconds,", ["C04", "C05"]),
    ("sched-register-always", "scheduler/threading/scheduler.py", "        if job.has_attempts_remaining:\n            with self.__jobs_lock:\n                self.__jobs.add(job)", "        with self.__jobs_lock:\n            self.__jobs.add(job)", ["C07", "C06"]),
    ("sched-delete-discard", "scheduler/threading/scheduler.py", "                self.__jobs.remove(job)", "                self.__jobs.discard(job)", ["C11"]),
    ("sched-jobs-nocopy", "scheduler/threading/scheduler.py", "        return self.__jobs.copy()\n\n    def ", "        return self.__jobs\n\n    def ", ["C11"]),
    ("sched-tags-any-swap", "scheduler/base/scheduler.py", "        return {job for job in jobs if tags & job.tags}\n    return {job for job in jobs if tags <= job.tags}", "        return {job for job in jobs if tags <= job.tags}\n    return {job for job in jobs if tags & job.tags}", ["C12"]),
    ("sched-nojoin", "scheduler/threading/scheduler.py", "        que.join()\n        for worker in workers:\n            worker.join()", "        que.join()", ["C16"]),
    ("sched-noqjoin", "scheduler/threading/scheduler.py", "        que.join()\n        for worker in workers:", "        for worker in workers:", ["C16"]),
    ("sched-workers-off1", "scheduler/threading/scheduler.py", "for _ in range(self.__n_threads or n_jobs):", "for _ in range((self.__n_threads or n_jobs) + 1):", ["C16"]),
    ("sched-nolock-delete", "scheduler/threading/scheduler.py", "            to_delete = select_jobs_by_tag(self.__jobs, tags, any_tag)\n\n            self.__jobs = self.__jobs - to_delete", "            to_delete = select_jobs_by_tag(self.__jobs.copy(), tags, any_tag)\n\n            self.__jobs = self.__jobs - to_delete", []),
    ("sched-once-daily", "scheduler/base/definition.py", "    Sunday: JobType.WEEKLY,", "    Sunday: JobType.DAILY,", ["C03"]),
    ("thrjob-noattempt-on-fail", "scheduler/threading/job.py", "                with self.__lock:\n                    self._BaseJob__failed_attempts += 1  # type: ignore\n            with self.__lock:\n                self._BaseJob__attempts += 1  # type: ignore", "                with self.__lock:\n                    self._BaseJob__failed_attempts += 1  # type: ignore\n                return\n            with self.__lock:\n                self._BaseJob__attempts += 1  # type: ignore", ["C10", "C06"]),
    ("thrjob-except-value", "scheduler/threading/job.py", "            except Exception:\n                logger.exception(\"Unhandled exception in `%r`!\", self)\n                with self.__lock:", "            except ValueError:\n                logger.exception(\"Unhandled exception in `%r`!\", self)\n                with self.__lock:", ["C10"]),
    ("thrjob-noexeclock", "scheduler/threading/job.py", "        with self.__exec_lock:\n            if not self.has_attempts_remaining:", "        if True:\n            if not self.has_attempts_remaining:", ["C16", "C14"]),
    ("thrjob-norecheck", "scheduler/threading/job.py", "            if not self.has_attempts_remaining:\n                # an overlapping exec_jobs call has used up the budget meanwhile\n                return\n", "", ["C14"]),
    ("aio-sleep-period", "scheduler/asyncio/scheduler.py", "sleep_seconds: float = job.timedelta(reference_dt).total_seconds()", "sleep_seconds: float = abs(job.timedelta(reference_dt).total_seconds())", ["C17"]),
    ("aio-ref-before", "scheduler/asyncio/scheduler.py", "                await job._exec(logger=self._logger)  # pylint: disable=protected-access\n\n                reference_dt = dt.datetime.now(tz=self.__tzinfo)", "                reference_dt = dt.datetime.now(tz=self.__tzinfo)\n                await job._exec(logger=self._logger)  # pylint: disable=protected-access\n", ["C17"]),
    ("aio-no-registry-on-schedule", "scheduler/asyncio/scheduler.py", "        self._jobs[job] = task\n\n        return job", "        if job.has_attempts_remaining:\n            self._jobs[job] = task\n\n        return job", ["C18", "C11"]),
    ("aiojob-nofail-count", "scheduler/asyncio/job.py", "            self._BaseJob__failed_attempts += 1  # type: ignore\n        self._BaseJob__attempts += 1", "            pass\n        self._BaseJob__attempts += 1", ["C10"]),
    ("aiojob-noattempt-on-fail", "scheduler/asyncio/job.py", "            self._BaseJob__failed_attempts += 1  # type: ignore\n        self._BaseJob__attempts += 1", "            self._BaseJob__failed_attempts += 1  # type: ignore\n            return\n        self._BaseJob__attempts += 1", ["C10", "C06"]),
    ("aiojob-nolog", "scheduler/asyncio/job.py", "            logger.exception(\"Unhandled exception in `%r`!\", self)\n            self._BaseJob__failed", "            self._BaseJob__failed", ["C10"]),
    ("aio-once-tags-asis", "scheduler/asyncio/scheduler.py", "            max_attempts=1,\n            tags=set(tags) if tags else set(),\n            alias=alias,\n        )", "            max_attempts=1,\n            tags=tags,\n            alias=alias,\n        )", ["C12"]),
    ("aiojob-drop-kwargs", "scheduler/asyncio/job.py", "self._BaseJob__handle(*self._BaseJob__args, **self._BaseJob__kwargs)", "self._BaseJob__handle(*self._BaseJob__args)", ["C19"]),
    ("aio-get-jobs-any-ignored", "scheduler/asyncio/scheduler.py", "        return select_jobs_by_tag(self.jobs, tags, any_tag)", "        return select_jobs_by_tag(self.jobs, tags, False)", ["C12"]),
    ("aio-once-maxatt2", "scheduler/asyncio/scheduler.py", "            kwargs=kwargs,\n            max_attempts=1,\n            tags=set(tags) if tags else set(),\n            alias=alias,\n            delay=False,", "            kwargs=kwargs,\n            max_attempts=2,\n            tags=set(tags) if tags else set(),\n            alias=alias,\n            delay=False,", ["C06", "C03"]),
    ("aio-nocancel", "scheduler/asyncio/scheduler.py", "            _: bool = task.cancel()", "            _ = task", ["C18"]),
    ("aio-nounregister", "scheduler/asyncio/scheduler.py", "            self._jobs.pop(job, None)", "            pass", ["C18", "C17"]),
    ("util-cutoff-ge", "scheduler/base/scheduler_util.py", "    if len(string) > max_length:", "    if len(string) >= max_length:", ["C20"]),
    ("util-cutoff-pos", "scheduler/base/scheduler_util.py", "        pos = max_length - 1", "        pos = max_length", ["C20"]),
]


def sh(cmd, cwd=None, timeout=900):
    p = subprocess.run(cmd, shell=True, cwd=cwd, capture_output=True, text=True, timeout=timeout)
    return p.returncode, p.stdout + p.stderr


def main():
    flt = sys.argv[1] if len(sys.argv) > 1 else ""
    flts = flt.split(",") if flt else []
    rows = []
    sh(f"git -C /repo worktree remove --force {REPO} 2>/dev/null; git -C /repo worktree add -q --detach {REPO} HEAD", cwd="/")
    for name, f, old, new, checks in MUTANTS:
        if flts and not any(f in name for f in flts):
            continue
        path = os.path.join(REPO, f)
        src = open(path).read()
        if src.count(old) != 1:
            rows.append((name, "NOT-APPLICABLE (pattern count %d)" % src.count(old), ""))
            continue
        open(path, "w").write(src.replace(old, new))
        try:
            try:
                rc, out = sh("timeout 150 /venv/bin/python -m pytest -q -x -p no:cacheprovider 2>&1 | tail -1", cwd=REPO, timeout=200)
            except subprocess.TimeoutExpired:
                out = ""
            tests = "tests pass" if " passed" in out and "failed" not in out else "KILLED-BY-TESTS"
            res = []
            for c in checks:
                try:
                    rc, out = sh(f"VERIF_REPO={REPO} ./check {c} --seed 1 --no-lean", cwd=VERIF, timeout=900)
                except subprocess.TimeoutExpired:
                    out = "VIOLATION timeout"
                line = [l for l in out.split("\n") if l.startswith("VIOLATION")]
                kind = "caught" if any("no-failing-input-found" not in l for l in line) else ("caught(nfi)" if line else "MISSED")
                res.append(f"{c}:{kind}")
            rows.append((name, tests, " ".join(res)))
        finally:
            open(path, "w").write(src)
        print(rows[-1], flush=True)
    sh(f"git -C /repo worktree remove --force {REPO}", cwd="/")
    json.dump(rows, open(os.path.join(VERIF, "tools", "mutants_last.json"), "w"), indent=1)


if __name__ == "__main__":
    main()
