#!/usr/bin/env python3
"""regenerate MANIFEST.json from the table below (run after adding a check)"""
import json
import os

HERE = os.path.dirname(os.path.dirname(os.path.abspath(__file__)))
sys_path = os.path.join(HERE, "tools", "manifest_table.json")
table = json.load(open(sys_path))
props = [json.loads(l) for l in open(os.path.join(HERE, "properties.jsonl"))]
ids = [p["id"] for p in props]
checks = []
for pid in ids:
    e = table["checks"].get(pid)
    if not e:
        continue
    checks.append({
        "property_id": pid,
        "quick_cmd": f"./check {pid} --tier quick",
        "thorough_cmd": f"./check {pid} --tier thorough",
        "evidence_file": f"evidence/{pid}.json",
        "replay_cmd_template": f"./check {pid} --replay {{path}}",
        "engine": "lean4-model+correspondence",
        "level_claimed": {"category": "proof", "text": e["text"], "design_ref": e.get("design_ref", f"DESIGN.md §5 {pid}")},
        "level_note": e["note"],
        "technique": e.get("technique", "Lean 4 theorems about a hand-written executable model; model tied to /repo on every run by a differential correspondence check and a Lean-evaluated Spec oracle on implementation observations"),
    })
na = [{"property_id": pid, "reason": table["not_applicable"].get(pid, "check not built yet in this round (machinery under construction; see DESIGN.md)")} for pid in ids if pid not in table["checks"]]
m = {
    "version": 1,
    "setup_cmd": "cd lean && lake build SchedVerif driver && cd .. && ./check --selftest",
    "hooks": {
        "guard": "DIGONIO_SCHEDULER_VERIF",
        "enable": "none needed - instrumentation (clock, locks, threads, event loop) is installed from outside the package at run time",
        "baseline_off_cmd": "cd /repo && /venv/bin/python -m pytest -ra -q -p no:cacheprovider --timeout=900 --continue-on-collection-errors",
        "source_commits": [],
        "add_only": True,
    },
    "engines": [{"name": "lean4-model+correspondence", "path": "lean/", "serves_properties": [c["property_id"] for c in checks],
                 "kind_free_text": "Lean 4 model + theorems (lean/SchedVerif), line-protocol driver (lean/Driver.lean), Python correspondence harness (harness/)"}],
    "checks": checks,
    "notes": table.get("notes", ""),
    "not_applicable": na,
}
json.dump(m, open(os.path.join(HERE, "MANIFEST.json"), "w"), indent=1)
print(f"{len(checks)} checks, {len(na)} not claimed")
