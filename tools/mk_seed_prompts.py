#!/usr/bin/env python3
"""tools/mk_seed_prompts.py <root> <id...> — create scratch worktrees <root>/<id> of /repo HEAD and the prompt files
<root>/out/<id>/prompt.txt for independent sub-agents (given only the property text; nothing from /verif)."""
import json, os, subprocess, sys
root = sys.argv[1]
ids = [a for a in sys.argv[2:] if not a.startswith("--")]
AIO = "--aio" in sys.argv   # steer towards the asyncio front end (only for properties that cover it)
VERIF = os.path.dirname(os.path.dirname(os.path.abspath(__file__)))
props = {json.loads(l)["id"]: json.loads(l) for l in open(os.path.join(VERIF, "properties.jsonl"))}
for pid in ids:
    p = props[pid]
    wt = f"{root}/{pid}"
    out = f"{root}/out/{pid}"
    os.makedirs(out, exist_ok=True)
    if not os.path.exists(wt):
        subprocess.run(["git", "-C", "/repo", "worktree", "add", "-q", "--detach", wt, "HEAD"], check=True)
    existing = []
    for d in sorted(os.listdir(os.path.join(VERIF, "seeded"))):
        if d.startswith(pid):
            m = json.load(open(os.path.join(VERIF, "seeded", d, "meta.json")))
            existing.append(f'"{d}: {m.get("summary", "")[:330]}"')
    ex = ""
    if existing:
        ex = ("Different seeded defects for this property already exist: " + "; ".join(existing) +
              ". Choose a DIFFERENT mechanism, a different code site and a different part of the property's statement than those.\n")
    txt = f"""You are helping evaluate a verification tool by writing a *seeded defect* for the Python library DigonIO/scheduler (a small in-process job scheduler).

You have your own scratch git worktree of the library at {wt} (work ONLY there; never touch /repo or /verif, and do not read anything under /verif). Run Python as `/venv/bin/python` with the worktree as the current directory. IMPORTANT: a script located outside the tree imports the installed copy under /repo unless it puts the current directory first on sys.path - start demo.py with `import sys, os; sys.path.insert(0, os.getcwd())` and print `scheduler.__file__`. The test suite runs with `cd {wt} && /venv/bin/python -m pytest -q -p no:cacheprovider` (about 300 tests, a few seconds; `tests/asyncio/test_async_scheduler.py::test_async_scheduler_exec` is known to be flaky, ignore it). Do NOT use `git stash` (the stash is shared between worktrees); to test the unchanged tree use `git -C {wt} apply -R <patch>` and then apply it again.

The semantic property that your change must BREAK:

  Title: {p['title']}
  Statement: {p['statement']}
  Quantified over: {p['quantifier']['text']}

Task: make a small, realistic source change inside {wt}/scheduler/ (the kind of slip a maintainer could make in a refactor, an optimisation or a "fix") such that
  (a) the package still imports and the whole existing test suite still passes (run it, all of it), and
  (b) the property above is violated, but only under something specific - a particular multi-step sequence of operations, an unusual input (specific offsets, boundary instants, particular flag combinations), a particular interleaving, or two cooperating code sites that each look fine alone. Do NOT choose a change that ordinary use would expose at once; prefer subtle changes that affect a corner of the input space.
{ex}{"The property covers the asyncio front end (scheduler/asyncio/) too: place your change so that it shows in the asyncio front end (it may or may not also show in the threading one)." + chr(10) if AIO else ""}Do not edit tests. Do not add new files inside scheduler/.

Deliver, in the directory {out}/ :
  1. patch.diff  - the output of `git -C {wt} diff`,
  2. demo.py     - a small standalone program (run as `cd <tree> && /venv/bin/python {out}/demo.py`) that exits with status 1 and prints what went wrong inside the changed tree, and exits 0 inside an unchanged checkout. Patch the clock (replace `datetime.datetime` in the `datetime` module with a subclass overriding `now`, like tests/conftest.py) instead of sleeping; make thread interleavings deterministic with Events/Barriers or wrappers; never hang (use timeouts and exit 1),
  3. meta.json   - {{"property": "{pid}", "summary": "<what was changed and why it breaks the property>", "needs": "<what specific input/sequence/interleaving is needed>", "files": [...]}}.
Before finishing verify: full test suite passes with the change; demo.py exits 1 with the change; after `git apply -R` demo.py exits 0; re-apply the patch (leave it applied). Report briefly what you changed and the verification results.
"""
    open(os.path.join(out, "prompt.txt"), "w").write(txt)
    print("prepared", pid, wt)
