#!/usr/bin/env python3
"""tools/reseed_all.py [name-substring] — regression over the kept seeded changes: apply each seeded/<id>/patch.diff to
/repo, run the checks listed in its meta.json (confirmed.caught_by), revert; prints caught / MISSED per seed and check.
Development aid (modifies /repo while running; do not run other checks concurrently)."""
import json, os, subprocess, sys
VERIF = os.path.dirname(os.path.dirname(os.path.abspath(__file__)))
flt = sys.argv[1] if len(sys.argv) > 1 else ""
rows = []
for d in sorted(os.listdir(os.path.join(VERIF, "seeded"))):
    if flt and flt not in d:
        continue
    sd = os.path.join(VERIF, "seeded", d)
    meta = json.load(open(os.path.join(sd, "meta.json")))
    checks = (meta.get("confirmed") or {}).get("caught_by") or [d[:3]]
    p = subprocess.run(f"git -C /repo apply -3 {sd}/patch.diff 2>/dev/null || git -C /repo apply {sd}/patch.diff", shell=True, capture_output=True, text=True)
    subprocess.run("git -C /repo reset -q", shell=True)
    if p.returncode != 0:
        rows.append((d, "PATCH-DOES-NOT-APPLY"))
        print(rows[-1], flush=True)
        subprocess.run("git -C /repo checkout -- .", shell=True)
        continue
    res = []
    try:
        for c in checks:
            try:
                q = subprocess.run(f"./check {c} --seed 1 --no-lean", shell=True, cwd=VERIF, capture_output=True, text=True, timeout=900)
                out = q.stdout
            except subprocess.TimeoutExpired:
                out = "VIOLATION timeout"
            v = [l for l in out.split("\n") if l.startswith("VIOLATION")]
            res.append(f"{c}:" + ("caught" if any("no-failing-input-found" not in l for l in v) else ("caught(nfi)" if v else "MISSED")))
    finally:
        subprocess.run("git -C /repo checkout -- .", shell=True)
    rows.append((d, " ".join(res)))
    print(rows[-1], flush=True)
json.dump(rows, open(os.path.join(VERIF, "tools", "reseed_last.json"), "w"), indent=1)
print("MISSED:", [r for r in rows if "MISSED" in r[1] or "nfi" in r[1] or "PATCH" in r[1]])
