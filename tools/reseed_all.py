#!/usr/bin/env python3
"""tools/reseed_all.py [name-substring] [--shard i/n] — sensitivity regression over the kept seeded changes: each
seeded/<id>/patch.diff is applied in a scratch worktree of /repo HEAD and the checks listed in its meta.json
(confirmed.caught_by) are run against that tree (VERIF_REPO, --no-lean, seed 1); prints caught / caught(nfi) / MISSED per seed
and check.  Results are merged into tools/reseed_last.json.  (/repo itself is not touched.)"""
import json, os, subprocess, sys
VERIF = os.path.dirname(os.path.dirname(os.path.abspath(__file__)))
flt = next((a for a in sys.argv[1:] if not a.startswith("--")), "")
shard = next((a for a in sys.argv[1:] if a.startswith("--shard")), None)
si, sn = (0, 1)
if shard:
    si, sn = [int(x) for x in (shard.split("=")[1] if "=" in shard else sys.argv[sys.argv.index(shard) + 1]).split("/")]
rows = []
names = [d for d in sorted(os.listdir(os.path.join(VERIF, "seeded"))) if not flt or flt in d]
for idx, d in enumerate(names):
    if idx % sn != si:
        continue
    sd = os.path.join(VERIF, "seeded", d)
    meta = json.load(open(os.path.join(sd, "meta.json")))
    checks = (meta.get("confirmed") or {}).get("caught_by") or [d[:3]]
    wt = f"/tmp/reseed_wt_{os.getpid()}"
    subprocess.run(["git", "-C", "/repo", "worktree", "add", "-q", "--detach", wt, "HEAD"], check=True)
    try:
        p = subprocess.run(f"git -C {wt} apply -3 {sd}/patch.diff 2>/dev/null || git -C {wt} apply {sd}/patch.diff", shell=True, capture_output=True, text=True)
        if p.returncode != 0:
            rows.append((d, "PATCH-DOES-NOT-APPLY"))
            print(rows[-1], flush=True)
            continue
        res = []
        for c in checks:
            try:
                q = subprocess.run(f"VERIF_REPO={wt} ./check {c} --seed 1 --no-lean", shell=True, cwd=VERIF, capture_output=True, text=True, timeout=1500)
                out = q.stdout
            except subprocess.TimeoutExpired:
                out = "VIOLATION timeout"
            v = [l for l in out.split("\n") if l.startswith("VIOLATION")]
            res.append(f"{c}:" + ("caught" if any("no-failing-input-found" not in l for l in v) else ("caught(nfi)" if v else "MISSED")))
        rows.append((d, " ".join(res)))
        print(rows[-1], flush=True)
    finally:
        subprocess.run(["git", "-C", "/repo", "worktree", "remove", "--force", wt])
out = os.path.join(VERIF, "tools", "reseed_last.json")
try:
    merged = dict(tuple(x) for x in json.load(open(out)))
except Exception:  # noqa: BLE001
    merged = {}
merged.update(dict(rows))
json.dump(sorted(merged.items()), open(out, "w"), indent=1)
print("MISSED:", [r for r in rows if "MISSED" in r[1] or "nfi" in r[1] or "PATCH" in r[1]])
