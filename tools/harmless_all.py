#!/usr/bin/env python3
"""tools/harmless_all.py [name-substring] [--procs N] — specificity regression: every behaviour-preserving change kept under
harmless/*.diff (written by independent sub-agents that were given the twenty property statements and asked for refactorings
that keep all of them true) is applied in a scratch worktree of /repo HEAD and ALL twenty quick checks are run against that
tree (VERIF_REPO, --no-lean); any VIOLATION line is a false alarm of the machinery.  Results: tools/harmless_last.json."""
import json, os, subprocess, sys
VERIF = os.path.dirname(os.path.dirname(os.path.abspath(__file__)))
flt = next((a for a in sys.argv[1:] if not a.startswith("--")), "")
CHECKS = [f"C{i:02d}" for i in range(1, 21)]
rows = []
for f in sorted(os.listdir(os.path.join(VERIF, "harmless"))):
    if not f.endswith(".diff") or (flt and flt not in f):
        continue
    wt = f"/tmp/harmless_wt_{os.getpid()}"
    subprocess.run(["git", "-C", "/repo", "worktree", "add", "-q", "--detach", wt, "HEAD"], check=True)
    try:
        p = subprocess.run(["git", "-C", wt, "apply", os.path.join(VERIF, "harmless", f)], capture_output=True, text=True)
        if p.returncode != 0:
            rows.append((f, "PATCH-DOES-NOT-APPLY"))
            continue
        alarms = []
        for c in CHECKS:
            q = subprocess.run(f"VERIF_REPO={wt} ./check {c} --no-lean --seed 5", shell=True, cwd=VERIF, capture_output=True, text=True, timeout=1800)
            v = [l for l in q.stdout.split("\n") if l.startswith("VIOLATION")]
            if v or q.returncode not in (0,):
                alarms.append(f"{c}:{'nfi' if v and all('no-failing-input-found' in l for l in v) else ('VIOLATION' if v else 'exit%d' % q.returncode)}")
        rows.append((f, " ".join(alarms) or "quiet"))
    finally:
        subprocess.run(["git", "-C", "/repo", "worktree", "remove", "--force", wt])
    print(rows[-1], flush=True)
out = os.path.join(VERIF, "tools", "harmless_last.json")
try:
    merged = dict(json.load(open(out)))
except Exception:  # noqa: BLE001
    merged = {}
merged.update(dict(rows))
json.dump(sorted(merged.items()), open(out, "w"), indent=1)
print("ALARMS:", [r for r in rows if r[1] != "quiet"])
