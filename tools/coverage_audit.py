#!/usr/bin/env python3
"""tools/coverage_audit.py [n] — which source lines of /repo/scheduler do the checks' scenarios execute?
Runs n scenarios of every property module in one process under sys.monitoring (LINE events, per code object)
and prints the executable lines never reached. Development aid: shows code the tie does not exercise."""
import ast, importlib, os, random, sys
VERIF = os.path.dirname(os.path.dirname(os.path.abspath(__file__)))
sys.path.insert(0, VERIF)
from harness import core  # noqa: E402
REPO = core.REPO
N = int(sys.argv[1]) if len(sys.argv) > 1 else 120
TOOL = 4
mon = sys.monitoring
mon.use_tool_id(TOOL, "verif-cov")
hit = {}


def on_line(code, line):
    fn = code.co_filename
    if fn.startswith(REPO + "/scheduler"):
        hit.setdefault(fn, set()).add(line)
    return mon.DISABLE


mon.register_callback(TOOL, mon.events.LINE, on_line)
mon.set_events(TOOL, mon.events.LINE)
for pid in [f"c{n:02d}" for n in range(1, 21)]:
    mod = importlib.import_module(f"harness.props.{pid}")
    rng = random.Random(5)
    k = 0
    for scn in mod.scenarios(rng, N, "quick"):
        try:
            r = {"scn": scn}
            lines, impl, obs = mod.runner(scn)
        except Exception as e:  # noqa: BLE001
            print("runner error", pid, type(e).__name__, e)
        k += 1
        if k >= N:
            break
    if hasattr(mod, "exhaustive"):
        try:
            mod.exhaustive("quick")
        except Exception as e:  # noqa: BLE001
            print("exhaustive error", pid, type(e).__name__, e)
mon.set_events(TOOL, 0)
total = miss = 0
for root, _d, files in os.walk(REPO + "/scheduler"):
    for f in sorted(files):
        if not f.endswith(".py"):
            continue
        path = os.path.join(root, f)
        tree = ast.parse(open(path).read())
        lines = set()
        for node in ast.walk(tree):
            if isinstance(node, ast.stmt) and not isinstance(node, (ast.FunctionDef, ast.AsyncFunctionDef, ast.ClassDef, ast.Import, ast.ImportFrom)):
                if isinstance(node, ast.Expr) and isinstance(getattr(node, "value", None), ast.Constant) and isinstance(node.value.value, str):
                    continue    # docstring
                lines.add(node.lineno)
        got = hit.get(path, set())
        missing = sorted(l for l in lines if l not in got)
        total += len(lines)
        miss += len(missing)
        if missing:
            print(os.path.relpath(path, REPO), f"{len(lines) - len(missing)}/{len(lines)}", "missing:", missing[:60])
print(f"TOTAL executable statements {total}, never executed {miss}")
