#!/usr/bin/env python3
"""keep a confirmed seeded change: tools/keep_seed.py <src dir> <name> <caught-by,comma> <missed-by,comma> [note]"""
import json, os, shutil, sys
src, name, caught, missed = sys.argv[1:5]
note = sys.argv[5] if len(sys.argv) > 5 else ""
dst = os.path.join(os.path.dirname(os.path.dirname(os.path.abspath(__file__))), "seeded", name)
os.makedirs(dst, exist_ok=True)
for f in ("patch.diff", "demo.py"):
    shutil.copy(os.path.join(src, f), os.path.join(dst, f))
meta = json.load(open(os.path.join(src, "meta.json")))
meta["confirmed"] = {
    "ran": "tools/try_seed.sh: scratch worktree of /repo HEAD; demo.py exit 0 unchanged; git apply patch.diff; full pytest suite passes; demo.py exit 1 with the change; then patch applied to /repo, checks run, /repo reverted",
    "caught_by": [c for c in caught.split(",") if c],
    "missed_by": [c for c in missed.split(",") if c],
    "note": note,
}
json.dump(meta, open(os.path.join(dst, "meta.json"), "w"), indent=1)
print("kept", dst)
