#!/bin/bash
# usage: tools/try_seed.sh <dir with patch.diff demo.py meta.json> <check ids...>
# confirms the seeded change in a scratch worktree (tests pass, demo fails with / passes without),
# then applies it to /repo, runs the given checks, and reverts /repo.
set -u
D=$(readlink -f "$1"); shift
WT=/tmp/seedwt_$$
git -C /repo worktree add -q --detach $WT HEAD || exit 2
cd $WT
echo "== demo on unchanged tree (expect 0)"; /venv/bin/python $D/demo.py >/dev/null 2>&1; echo "exit=$?"
if ! git apply -3 $D/patch.diff 2>/dev/null && ! git apply $D/patch.diff; then echo "PATCH DOES NOT APPLY"; cd /; git -C /repo worktree remove --force $WT; exit 2; fi
echo "== test suite with change"; /venv/bin/python -m pytest -q -p no:cacheprovider -x 2>&1 | tail -1
echo "== demo with change (expect 1)"; /venv/bin/python $D/demo.py >/dev/null 2>&1; echo "exit=$?"
cd /; git -C /repo worktree remove --force $WT
cd /repo && (git apply -3 $D/patch.diff 2>/dev/null || git apply $D/patch.diff) && git -C /repo reset -q 2>/dev/null
cd /verif
for c in "$@"; do
  echo "== check $c"; ./check $c --seed ${SEED:-1} 2>&1 | tail -4
done
git -C /repo checkout -- . ; git -C /repo status --short | head -3
